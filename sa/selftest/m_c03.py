"""C03 mutants / neutral variants"""
from sa.selftest.mutants import M, MM, N, A, SYNC, MEM, TASKS

DL = "CancelScope._deliver_cancellation"
EN = "CancelScope.__enter__"
EX = "CancelScope.__exit__"
CA = "CancelScope.cancel"

MM("c03-F7-revert-spawn", "C03", [(A, "TaskGroup._spawn", "        self.cancel_scope._restart_cancellation()\n", "")], ["R03-i"])
MM("c03-F7-revert-from-thread", "C03", [(A, "AsyncIOBackend.run_async_from_thread", "                scope._restart_cancellation()\n", "")], ["R03-i"])
M("c03-cancel-no-deliver", "C03", A, CA, "            if self._host_task is not None:\n                self._deliver_cancellation(self)\n", "", ["R03-a"])
M("c03-cancel-deliver-before-mark", "C03", A, CA,
  "            self._cancel_called = True\n", "            if self._host_task is not None:\n                self._deliver_cancellation(self)\n\n            self._cancel_called = True\n", ["R03-a"])
M("c03-cancel-not-idempotent", "C03", A, CA, "        if not self._cancel_called:\n            if self._timeout_handle:", "        if True:\n            if self._timeout_handle:", ["R03-a"])
M("c03-enter-no-deliver", "C03", A, EN, "        if self._cancel_called:\n            self._deliver_cancellation(self)\n", "", ["R03-b"])
M("c03-enter-deliver-before-active", "C03", A, EN,
  "        self._timeout()\n        self._active = True\n\n        # Start cancelling the host task if the scope was cancelled before entering\n        if self._cancel_called:\n            self._deliver_cancellation(self)\n",
  "        if self._cancel_called:\n            self._deliver_cancellation(self)\n\n        self._timeout()\n        self._active = True\n", ["R03-b"])
M("c03-retry-after-must-cancel-skip", "C03", A, DL,
  "            should_retry = True\n            if task._must_cancel:  # type: ignore[attr-defined]\n                continue\n",
  "            if task._must_cancel:  # type: ignore[attr-defined]\n                continue\n\n            should_retry = True\n", ["R03-c"])
M("c03-retry-only-when-cancelled", "C03", A, DL,
  "            should_retry = True\n            if task._must_cancel:  # type: ignore[attr-defined]\n                continue\n",
  "            if task._must_cancel:  # type: ignore[attr-defined]\n                continue\n", ["R03-c"])
M("c03-retry-or-shortcircuit", "C03", A, DL,
  "should_retry = scope._deliver_cancellation(origin) or should_retry", "should_retry = should_retry or scope._deliver_cancellation(origin)", ["R03-c"])
M("c03-child-result-dropped", "C03", A, DL,
  "should_retry = scope._deliver_cancellation(origin) or should_retry", "scope._deliver_cancellation(origin)", ["R03-c"])
M("c03-no-rearm", "C03", A, DL,
  "            if should_retry:\n                self._cancel_handle = get_running_loop().call_soon(\n                    self._deliver_cancellation, origin\n                )\n            else:\n                self._cancel_handle = None",
  "            self._cancel_handle = None", ["R03-c"])
M("c03-rearm-wrong-origin", "C03", A, DL, "                    self._deliver_cancellation, origin\n", "                    self._deliver_cancellation, self._parent_scope\n", ["R03-c"])
M("c03-handle-never-cleared", "C03", A, DL, "            else:\n                self._cancel_handle = None\n", "", ["R03-c"])
M("c03-only-host-cancelled", "C03", A, DL,
  "if task is not current and (task is self._host_task or _task_started(task)):", "if task is not current and task is self._host_task:", ["R03-c"])
M("c03-cancel-skipped", "C03", A, DL,
  "                    task.cancel(origin._cancel_reason)\n", "                    pass\n", ["R03-c"])
M("c03-exit-no-restart", "C03", A, EX, "            self._restart_cancellation_in_parent()\n", "", ["R03-d"])
M("c03-exit-restart-before-pointer", "C03", A, EX,
  "            host_task_state.cancel_scope = self._parent_scope\n\n            # Restart the cancellation effort in the closest visible, cancelled parent\n            # scope if necessary\n            self._restart_cancellation_in_parent()\n",
  "            self._restart_cancellation_in_parent()\n            host_task_state.cancel_scope = self._parent_scope\n", ["R03-d"])
M("c03-unshield-no-restart", "C03", A, "CancelScope.shield@setter",
  "            if not value:\n                self._restart_cancellation_in_parent()\n", "", ["R03-d"])
M("c03-restart-only-if-pending", "C03", A, "CancelScope._restart_cancellation",
  "                if scope._cancel_handle is None:\n                    scope._deliver_cancellation(scope)\n", "                if scope._cancel_handle is not None:\n                    scope._deliver_cancellation(scope)\n", ["R03-d"])
M("c03-restart-no-deliver", "C03", A, "CancelScope._restart_cancellation",
  "                if scope._cancel_handle is None:\n                    scope._deliver_cancellation(scope)\n\n                break", "                break", ["R03-d"])
M("c03-restart-skips-own-parent", "C03", A, "CancelScope._restart_cancellation_in_parent",
  "        if self._parent_scope is not None:\n            self._parent_scope._restart_cancellation()", "        pass", ["R03-d"])
M("c03-checkpoint-if-cancelled-returns", "C03", A, "AsyncIOBackend.checkpoint_if_cancelled",
  "            if cancel_scope.cancel_called:\n                await sleep(0)\n", "            if cancel_scope.cancel_called:\n                await sleep(0)\n                return\n", ["R03-g"])
M("c03-checkpoint-if-cancelled-busy", "C03", A, "AsyncIOBackend.checkpoint_if_cancelled",
  "            if cancel_scope.cancel_called:\n                await sleep(0)\n", "            if cancel_scope.cancel_called:\n                continue\n", ["R03-g"])
M("c03-checkpoint-if-cancelled-always-yields", "C03", A, "AsyncIOBackend.checkpoint_if_cancelled",
  "        while cancel_scope:\n", "        await sleep(0)\n        while cancel_scope:\n", ["R03-g"])
M("c03-foreign-member-writer", "C03", A, "TaskGroup.create_task", "        final_name = get_coro_name(coro, name)\n", "        final_name = get_coro_name(coro, name)\n        self.cancel_scope._tasks.discard(current_task())\n", ["R03-h"])

N("c03-n-retry-if-form", "C03", A, DL,
  "                should_retry = scope._deliver_cancellation(origin) or should_retry",
  "                if scope._deliver_cancellation(origin):\n                    should_retry = True")
N("c03-n-cancel-early-return", "C03", A, CA,
  "        if not self._cancel_called:\n            if self._timeout_handle:\n                self._timeout_handle.cancel()\n                self._timeout_handle = None\n",
  "        if self._cancel_called:\n            return\n\n        if True:\n            if self._timeout_handle:\n                self._timeout_handle.cancel()\n                self._timeout_handle = None\n")

# from seeded changes C03/c and C03/d (round 2)
M("c03-deadline-setter-rearms-only-pending-timer", "C03", A, "CancelScope.deadline@setter",
  "            self._timeout_handle = None\n\n        if self._active and not self._cancel_called:\n            self._timeout()",
  "            self._timeout_handle = None\n            if self._active and not self._cancel_called:\n                self._timeout()", ["R03-j"])
M("c03-thread-token-wait-under-shield", "C03", A, "AsyncIOBackend.run_sync_in_worker_thread",
  "        async with limiter or cls.current_default_thread_limiter():\n            with CancelScope(shield=not abandon_on_cancel) as scope:",
  "        with CancelScope(shield=not abandon_on_cancel) as scope:\n            async with limiter or cls.current_default_thread_limiter():", ["R03-k"])

# from seeded change C03/f (round 3)
M("c03-cancellable-alias-dropped", "C03", "to_thread.py", "run_sync", "        abandon_on_cancel = cancellable\n", "", ["R03-m"])
