"""C12 mutants / neutral variants"""
from sa.selftest.mutants import M, MM, N, A, SYNC, MEM, TASKS

SN = "MemoryObjectSendStream.send_nowait"
RN = "MemoryObjectReceiveStream.receive_nowait"
S = "MemoryObjectSendStream.send"
R = "MemoryObjectReceiveStream.receive"

M("c12-duplicate-delivery", "C12", MEM, SN,
  "                receive_event.set()\n                return\n", "                receive_event.set()\n", ["R12-a"])
M("c12-no-wake-receiver", "C12", MEM, SN,
  "                receiver.item = item\n                receive_event.set()\n", "                receiver.item = item\n", ["R12-a"])
M("c12-drop-when-full", "C12", MEM, SN,
  "        else:\n            raise WouldBlock", "        else:\n            return", ["R12-a"])
M("c12-buffer-and-raise", "C12", MEM, SN,
  "            self._state.buffer.append(item)\n        else:\n            raise WouldBlock",
  "            self._state.buffer.append(item)\n        raise WouldBlock", ["R12-a"])
M("c12-handoff-to-cancelled", "C12", MEM, SN,
  "            if not receiver.task_info.has_pending_cancellation():\n                receiver.item = item\n                receive_event.set()\n                return",
  "            receiver.item = item\n            receive_event.set()\n            return", ["R12-b"])
M("c12-unbounded", "C12", MEM, SN,
  "        if len(self._state.buffer) < self._state.max_buffer_size:\n            self._state.buffer.append(item)\n        else:\n            raise WouldBlock",
  "        self._state.buffer.append(item)", ["R12-c"])
M("c12-off-by-one", "C12", MEM, SN,
  "len(self._state.buffer) < self._state.max_buffer_size", "len(self._state.buffer) <= self._state.max_buffer_size", ["R12-c"])
M("c12-receiver-lifo", "C12", MEM, SN, "waiting_receivers.popitem(last=False)", "waiting_receivers.popitem()", ["R12-e", "R12-a"])
M("c12-buffer-lifo", "C12", MEM, RN, "return self._state.buffer.popleft()", "return self._state.buffer.pop()", ["R12-e", "R12-d"])
M("c12-sender-lifo", "C12", MEM, RN, "waiting_senders.popitem(last=False)", "waiting_senders.popitem()", ["R12-e", "R12-d"])
M("c12-sender-not-woken", "C12", MEM, RN, "            send_event.set()\n", "", ["R12-d"])
M("c12-sender-item-lost", "C12", MEM, RN, "            self._state.buffer.append(item)\n", "", ["R12-d"])
M("c12-moves-all-senders", "C12", MEM, RN, "        if self._state.waiting_senders:\n            # Get", "        while self._state.waiting_senders:\n            # Get", ["R12-d"])
M("c12-peek-not-take", "C12", MEM, RN, "return self._state.buffer.popleft()", "return self._state.buffer[0]", ["R12-d"])
M("c12-moved-item-at-front", "C12", MEM, RN, "self._state.buffer.append(item)", "self._state.buffer.appendleft(item)", ["R12-e", "R12-d"])
M("c12-cancelled-sender-stays", "C12", MEM, S,
  "            except BaseException:\n                self._state.waiting_senders.pop(send_event, None)\n                raise",
  "            except BaseException:\n                raise", ["R12-f"])
M("c12-cancelled-receiver-stays", "C12", MEM, R,
  "            try:\n                await receive_event.wait()\n            finally:\n                self._state.waiting_receivers.pop(receive_event, None)",
  "            await receive_event.wait()\n            self._state.waiting_receivers.pop(receive_event, None)", ["R12-f"])
M("c12-send-no-checkpoint", "C12", MEM, S, "        await checkpoint()\n", "", ["R12-f"])
M("c12-receive-no-checkpoint", "C12", MEM, R, "        await checkpoint()\n", "", ["R12-f"])
M("c12-send-effect-before-checkpoint", "C12", MEM, S,
  "        await checkpoint()\n        try:\n            self.send_nowait(item)\n        except WouldBlock:",
  "        try:\n            self.send_nowait(item)\n            await checkpoint()\n        except WouldBlock:", ["R12-f"])
M("c12-broken-sender-stays-registered", "C12", MEM, S,
  "                del self._state.waiting_senders[send_event]\n                raise BrokenResourceError from None",
  "                raise BrokenResourceError from None", ["R12-f"])
M("c12-cancel-overtakes-wakeup", "C12", A, "CancelScope._deliver_cancellation",
  "                if not isinstance(waiter, asyncio.Future) or not waiter.done():\n                    task.cancel(origin._cancel_reason)",
  "                if True:\n                    task.cancel(origin._cancel_reason)", ["R12-g"])
M("c12-pending-ignores-must-cancel", "C12", A, "AsyncIOTaskInfo.has_pending_cancellation",
  "if task._must_cancel or (", "if (", ["R12-h"])
M("c12-pending-ignores-scope", "C12", A, "AsyncIOTaskInfo.has_pending_cancellation",
  "                return cancel_scope._effectively_cancelled", "                return cancel_scope.cancel_called", ["R12-h"])
M("c12-send-registers-none", "C12", MEM, S, "self._state.waiting_senders[send_event] = item", "self._state.waiting_senders[send_event] = None", ["R12-f"])

N("c12-n-len-flip", "C12", MEM, SN, "if len(self._state.buffer) < self._state.max_buffer_size:", "if self._state.max_buffer_size > len(self._state.buffer):")
N("c12-n-alias-state", "C12", MEM, RN,
  "        if self._state.waiting_senders:\n            # Get the item from the next sender\n            send_event, item = self._state.waiting_senders.popitem(last=False)\n            self._state.buffer.append(item)\n            send_event.set()\n\n        if self._state.buffer:\n            return self._state.buffer.popleft()",
  "        state = self._state\n        if state.waiting_senders:\n            send_event, item = state.waiting_senders.popitem(last=False)\n            state.buffer.append(item)\n            send_event.set()\n\n        if state.buffer:\n            return state.buffer.popleft()")
N("c12-n-else-raise", "C12", MEM, SN,
  "        if len(self._state.buffer) < self._state.max_buffer_size:\n            self._state.buffer.append(item)\n        else:\n            raise WouldBlock",
  "        if not (len(self._state.buffer) < self._state.max_buffer_size):\n            raise WouldBlock\n\n        self._state.buffer.append(item)")
N("c12-n-deliver-nested", "C12", A, "CancelScope._deliver_cancellation",
  "                if not isinstance(waiter, asyncio.Future) or not waiter.done():\n                    task.cancel(origin._cancel_reason)",
  "                if not (isinstance(waiter, asyncio.Future) and waiter.done()):\n                    task.cancel(origin._cancel_reason)")

# from seeded change C12/b
M("c12-skip-stops-at-cancelled-receiver", "C12", MEM, "MemoryObjectSendStream.send_nowait",
  "            if not receiver.task_info.has_pending_cancellation():\n                receiver.item = item\n                receive_event.set()\n                return\n",
  "            if receiver.task_info.has_pending_cancellation():\n                break\n\n            receiver.item = item\n            receive_event.set()\n            return\n", ["R12-c"])

M("c12-anext-swallows-errors", "C12", "abc/_streams.py", "UnreliableObjectReceiveStream.__anext__", "        except EndOfStream:", "        except Exception:", ["R12-i"])
M("c12-anext-drops-item", "C12", "abc/_streams.py", "UnreliableObjectReceiveStream.__anext__", "            return await self.receive()", "            await self.receive()\n            return await self.receive()", ["R12-i"])

# from seeded changes C12/c and C12/d (round 2)
M("c12-close-drops-receivers-of-live-stream", "C12", MEM, "MemoryObjectSendStream.close",
  "            if self._state.open_send_channels == 0:\n                receive_events = list(self._state.waiting_receivers.keys())\n                self._state.waiting_receivers.clear()\n",
  "            receive_events = list(self._state.waiting_receivers.keys())\n            self._state.waiting_receivers.clear()\n            if self._state.open_send_channels == 0:\n", ["R12-e"])
M("c12-close-clears-buffer", "C12", MEM, "MemoryObjectReceiveStream.close", "            self._state.open_receive_channels -= 1\n", "            self._state.open_receive_channels -= 1\n            self._state.buffer.clear()\n", ["R12-e"])

# from seeded change C12/e (round 3)
M("c12-receive-closed-check-after-wake", "C12", MEM, "MemoryObjectReceiveStream.receive",
  "            try:\n                return receiver.item\n            except AttributeError:", "            if self._closed:\n                raise ClosedResourceError\n\n            try:\n                return receiver.item\n            except AttributeError:", ["R12-f"])

# from seeded changes C12/g, C12/h (round 4)
M("c12-pending-cancellation-asks-about-the-caller", "C12", A, "AsyncIOTaskInfo.has_pending_cancellation", "        if task_state := _task_states.get(task):", "        if task_state := _task_states.get(current_task()):", ["R12-h"])
M("c12-effectively-cancelled-honours-only-own-shield", "C12", A, "CancelScope._effectively_cancelled", "            if cancel_scope.shield:", "            if self.shield:", ["R12-j"])
N("c12-n-pending-cancellation-plain-assignments", "C12", A, "AsyncIOTaskInfo.has_pending_cancellation",
  "        if task_state := _task_states.get(task):\n            if cancel_scope := task_state.cancel_scope:\n                return cancel_scope._effectively_cancelled",
  "        task_state = _task_states.get(task)\n        if task_state:\n            cancel_scope = task_state.cancel_scope\n            if cancel_scope:\n                return cancel_scope._effectively_cancelled")

# from seeded change C12/i (round 5)
M("c12-anext-checkpoints-after-receive", "C12", "abc/_streams.py", "UnreliableObjectReceiveStream.__anext__", "            return await self.receive()", "            item = await self.receive()\n            await __import__(\"anyio\").lowlevel.checkpoint()\n            return item", ["R12-i"])
