"""C20 mutants / neutral variants"""
from sa.selftest.mutants import M, MM, N

FN = "functools.py"
Q = "AsyncLRUCacheWrapper.__call__"

EVICT = ("                    for old_key, old_entry in cache_entry.items():\n"
         "                        if old_entry[1] is None:\n"
         "                            del cache_entry[old_key]\n"
         "                            self._currsize -= 1\n"
         "                            break\n")

M("c20-F3a-revert-popitem", "C20", FN, Q, EVICT, "                    cache_entry.popitem(last=False)\n                    self._currsize -= 1\n", ["R20-a"])
MM("c20-F3b-revert-evict-before-compute", "C20", [
    (FN, Q, "                self._misses += 1\n                value = await self.__wrapped__(*args, **kwargs)",
     "                self._misses += 1\n                if self._maxsize is not None and self._currsize >= self._maxsize:\n                    for old_key, old_entry in cache_entry.items():\n                        if old_entry[1] is None:\n                            del cache_entry[old_key]\n                            break\n                else:\n                    self._currsize += 1\n\n                value = await self.__wrapped__(*args, **kwargs)"),
    (FN, Q, "                cache_entry.move_to_end(key)\n                self._currsize += 1\n                if self._maxsize is not None and self._currsize > self._maxsize:\n                    # Evict the least recently used result, never an entry that is\n                    # still being computed\n" + EVICT,
     "                cache_entry.move_to_end(key)\n"),
], ["R20-d"])
M("c20-evict-inflight", "C20", FN, Q, "                        if old_entry[1] is None:\n                            del cache_entry[old_key]\n                            self._currsize -= 1\n                            break\n",
  "                        del cache_entry[old_key]\n                        self._currsize -= 1\n                        break\n", ["R20-a"])
M("c20-evict-no-break", "C20", FN, Q, "                            self._currsize -= 1\n                            break\n", "                            self._currsize -= 1\n", ["R20-a", "R20-d"])
M("c20-evict-no-decrement", "C20", FN, Q, "                            del cache_entry[old_key]\n                            self._currsize -= 1\n", "                            del cache_entry[old_key]\n", ["R20-d"])
M("c20-evict-mru", "C20", FN, Q, "for old_key, old_entry in cache_entry.items():", "for old_key, old_entry in reversed(cache_entry.items()):", ["R20-e", "R20-a"])
M("c20-evict-off-by-one", "C20", FN, Q, "self._currsize > self._maxsize:", "self._currsize > self._maxsize + 1:", ["R20-d"])
M("c20-evict-unconditional", "C20", FN, Q, "                if self._maxsize is not None and self._currsize > self._maxsize:", "                if self._maxsize is not None:", ["R20-d"])
M("c20-checkpoint-between-store-and-evict", "C20", FN, Q, "                cache_entry.move_to_end(key)\n                self._currsize += 1\n",
  "                cache_entry.move_to_end(key)\n                await checkpoint()\n                self._currsize += 1\n", ["R20-d"])
M("c20-count-before-compute", "C20", FN, Q, "                self._misses += 1\n                value = await self.__wrapped__(*args, **kwargs)",
  "                self._misses += 1\n                self._currsize += 1\n                value = await self.__wrapped__(*args, **kwargs)", ["R20-d"])
M("c20-recompute-always", "C20", FN, Q, "            else:\n                # Another task filled the cache while we were waiting for the lock\n                self._hits += 1\n                cache_entry.move_to_end(key)\n                value = cast(T, cached_value)",
  "            else:\n                # Another task filled the cache while we were waiting for the lock\n                self._hits += 1\n                cache_entry.move_to_end(key)\n                value = await self.__wrapped__(*args, **kwargs)", ["R20-c"])
M("c20-shared-lock", "C20", FN, Q, "        except KeyError:\n            # We're the first task to call this function\n            cached_value, lock, expires_at = (\n                initial_missing,\n                Lock(fast_acquire=not self._always_checkpoint),\n                None,\n            )",
  "        except KeyError:\n            # We're the first task to call this function\n            cached_value, lock, expires_at = (\n                initial_missing,\n                self._lock,\n                None,\n            )", ["R20-c"])
M("c20-hit-no-move-to-end", "C20", FN, Q, "                self._hits += 1\n                cache_entry.move_to_end(key)\n                if self._always_checkpoint:", "                self._hits += 1\n                if self._always_checkpoint:", ["R20-e"])
M("c20-late-hit-no-move-to-end", "C20", FN, Q, "                self._hits += 1\n                cache_entry.move_to_end(key)\n                value = cast(T, cached_value)", "                self._hits += 1\n                value = cast(T, cached_value)", ["R20-e"])
M("c20-result-not-mru", "C20", FN, Q, "                cache_entry[key] = value, None, expires_at\n                cache_entry.move_to_end(key)\n", "                cache_entry[key] = value, None, expires_at\n", ["R20-e"])
M("c20-serve-expired", "C20", FN, Q, "            if expires_at is not None and current_time() >= expires_at:", "            if expires_at is not None and current_time() >= expires_at + self._ttl:", ["R20-e"])
M("c20-expiry-inverted", "C20", FN, Q, "            if expires_at is not None and current_time() >= expires_at:", "            if expires_at is not None and current_time() < expires_at:", ["R20-e"])
M("c20-expiry-before-compute", "C20", FN, Q,
  "                value = await self.__wrapped__(*args, **kwargs)\n                expires_at = (\n                    current_time() + self._ttl if self._ttl is not None else None\n                )\n",
  "                expires_at = (\n                    current_time() + self._ttl if self._ttl is not None else None\n                )\n                value = await self.__wrapped__(*args, **kwargs)\n", ["R20-e"])
M("c20-replace-inflight", "C20", FN, Q, "        if lock is None:\n            if expires_at is not None and current_time() >= expires_at:", "        if True:\n            if expires_at is not None and current_time() >= expires_at:", ["R20-a", "R20-e", "R20-d"])
M("c20-key-no-separator", "C20", FN, Q, "            key += (initial_missing,) + sum(kwargs.items(), ())", "            key += sum(kwargs.items(), ())", ["R20-f"])
M("c20-key-kw-names-only", "C20", FN, Q, "            key += (initial_missing,) + sum(kwargs.items(), ())", "            key += (initial_missing,) + tuple(kwargs)", ["R20-f"])
M("c20-key-typed-ignores-kwargs", "C20", FN, Q, "            if kwargs:\n                key += (initial_missing,) + tuple(type(val) for val in kwargs.values())", "            pass", ["R20-f"])
M("c20-key-no-args", "C20", FN, Q, "        key: tuple[Any, ...] = args", "        key: tuple[Any, ...] = ()", ["R20-f"])
M("c20-wrapped-drops-kwargs", "C20", FN, Q, "                value = await self.__wrapped__(*args, **kwargs)\n                expires_at", "                value = await self.__wrapped__(*args)\n                expires_at", ["R20-f"])
M("c20-store-under-args", "C20", FN, Q, "                cache_entry[key] = value, None, expires_at", "                cache_entry[args] = value, None, expires_at", ["R20-f", "R20-a"])
M("c20-bypass-late", "C20", FN, Q, "        if self._maxsize == 0:\n            value = await self.__wrapped__(*args, **kwargs)\n            self._misses += 1\n            return value\n", "", ["R20-e", "R20-c"])
N("c20-n-size-test-flipped", "C20", FN, Q, "self._currsize > self._maxsize:", "self._maxsize < self._currsize:")
N("c20-n-evict-guard-continue", "C20", FN, Q, "                        if old_entry[1] is None:\n                            del cache_entry[old_key]\n                            self._currsize -= 1\n                            break\n",
  "                        if old_entry[1] is not None:\n                            continue\n\n                        del cache_entry[old_key]\n                        self._currsize -= 1\n                        break\n")
N("c20-n-expiry-flipped", "C20", FN, Q, "            if expires_at is not None and current_time() >= expires_at:", "            if expires_at is not None and expires_at <= current_time():")

# ---- re-read under the lock (structure after the F12 repair)
REREAD = ("                entry = cache_entry.get(key)\n"
          "                if entry is None or (entry[1] is not None and entry[1] is not lock):\n")
M("c20-stale-placeholder-test", "C20", FN, Q, "if (cached_value := entry[0]) is initial_missing:", "if cached_value is initial_missing:", ["R20-c"])
M("c20-compute-outside-lock", "C20", FN, Q,
  "                if (cached_value := entry[0]) is initial_missing:\n                    self._misses += 1\n                    value = await self.__wrapped__(*args, **kwargs)",
  "                value = await self.__wrapped__(*args, **kwargs)\n                if (cached_value := entry[0]) is initial_missing:\n                    self._misses += 1", ["R20-c"])
M("c20-reread-other-key", "C20", FN, Q, "entry = cache_entry.get(key)", "entry = cache_entry.get(args)", ["R20-b"])
M("c20-F12-revert-intolerant-reread", "C20", FN, Q,
  REREAD + "                    # The result we were waiting for was stored and already evicted\n                    # again (and may be in the process of being recomputed by someone\n                    # else), so start over\n                    continue\n\n                if (cached_value := entry[0]) is initial_missing:",
  "                if (cached_value := cache_entry[key][0]) is initial_missing:", ["R20-b", "R20-c"])
M("c20-evicted-waiter-recomputes-under-stale-lock", "C20", FN, Q,
  "                if entry is None or (entry[1] is not None and entry[1] is not lock):\n                    # The result we were waiting for was stored and already evicted\n                    # again (and may be in the process of being recomputed by someone\n                    # else), so start over\n                    continue\n\n                if (cached_value := entry[0]) is initial_missing:",
  "                if entry is None or (cached_value := entry[0]) is initial_missing:", ["R20-c"])
M("c20-retry-only-when-missing", "C20", FN, Q, "if entry is None or (entry[1] is not None and entry[1] is not lock):", "if entry is None:", ["R20-c"])
N("c20-n-reread-two-steps", "C20", FN, Q, "                if (cached_value := entry[0]) is initial_missing:", "                if (cached_value := entry[0]) is not initial_missing:\n                    pass\n                if cached_value is initial_missing:")

# from seeded change C20/c (round 2) and the now-harmless C20/a
M("c20-hit-bookkeeping-after-checkpoint", "C20", FN, Q,
  "                    self._hits += 1\n                    cache_entry.move_to_end(key)\n                    if self._always_checkpoint:\n                        await checkpoint()\n",
  "                    if self._always_checkpoint:\n                        await checkpoint()\n\n                    self._hits += 1\n                    cache_entry.move_to_end(key)\n", ["R20-b"])
N("c20-n-drop-own-placeholder-on-failure", "C20", FN, Q, "                    value = await self.__wrapped__(*args, **kwargs)\n                    expires_at",
  "                    try:\n                        value = await self.__wrapped__(*args, **kwargs)\n                    except BaseException:\n                        del cache_entry[key]\n                        raise\n\n                    expires_at")

# from seeded change C20/h (round 4)
M("c20-falsy-instance-dropped", "C20", FN, "_LRUMethodWrapper.__call__",
  "        if self.__instance is None:\n            return await self.__wrapper(*args, **kwargs)\n\n        return await self.__wrapper(self.__instance, *args, **kwargs)",
  "        if self.__instance:\n            return await self.__wrapper(self.__instance, *args, **kwargs)\n\n        return await self.__wrapper(*args, **kwargs)", ["R20-f"])
N("c20-n-method-wrapper-branches-swapped", "C20", FN, "_LRUMethodWrapper.__call__",
  "        if self.__instance is None:\n            return await self.__wrapper(*args, **kwargs)\n\n        return await self.__wrapper(self.__instance, *args, **kwargs)",
  "        if self.__instance is not None:\n            return await self.__wrapper(self.__instance, *args, **kwargs)\n        else:\n            return await self.__wrapper(*args, **kwargs)")
