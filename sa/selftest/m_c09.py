"""C09 mutants / neutral variants"""
from sa.selftest.mutants import M, MM, N, A, SYNC, MEM, TASKS


M("c09-barging", "C09", A, "Lock.acquire",
  "if self._owner_task is None and not self._waiters:", "if self._owner_task is None:", ["R09-a"])
M("c09-nowait-barging", "C09", A, "Lock.acquire_nowait",
  "if self._owner_task is None and not self._waiters:", "if self._owner_task is None:", ["R09-a"])
M("c09-real-checkpoint-between-test-and-take", "C09", A, "Lock.acquire",
  "await AsyncIOBackend.checkpoint_if_cancelled()\n            self._owner_task = task",
  "await AsyncIOBackend.checkpoint()\n            self._owner_task = task", ["R09-a"])
M("c09-handoff-to-cancelled", "C09", A, "Lock.release",
  "            if fut.cancelled():\n                continue\n\n", "", ["R09-b"])
M("c09-lifo", "C09", A, "Lock.release", "self._waiters.popleft()", "self._waiters.pop()", ["R09-c"])
M("c09-put-front", "C09", A, "Lock.acquire", "self._waiters.append(item)", "self._waiters.appendleft(item)", ["R09-c"])
M("c09-no-wake", "C09", A, "Lock.release", "            fut.set_result(None)\n            return", "            return", ["R09-b"])
M("c09-no-owner-transfer", "C09", A, "Lock.release",
  "            self._owner_task = task\n            fut.set_result(None)", "            fut.set_result(None)", ["R09-b"])
M("c09-free-with-waiters", "C09", A, "Lock.release",
  "            fut.set_result(None)\n            return", "            fut.set_result(None)\n            break", ["R09-b"])
M("c09-no-owner-check", "C09", A, "Lock.release",
  "        if self._owner_task != current_task():\n            raise RuntimeError(\"The current task is not holding this lock\")\n", "", ["R09-b"])
M("c09-cancelled-waiter-keeps-lock", "C09", A, "Lock.acquire",
  "            else:\n                self.release()\n\n            raise", "            raise", ["R09-d"])
M("c09-cancelled-waiter-stays-queued", "C09", A, "Lock.acquire",
  "                try:\n                    self._waiters.remove(item)\n                except ValueError:\n                    pass",
  "                pass", ["R09-d"])
M("c09-swallow-cancel", "C09", A, "Lock.acquire",
  "            else:\n                self.release()\n\n            raise", "            else:\n                self.release()\n                raise", ["R09-d"])
M("c09-fastpath-no-undo", "C09", A, "Lock.acquire",
  "                except CancelledError:\n                    self.release()\n                    raise\n\n            return",
  "                except CancelledError:\n                    raise\n\n            return", ["R09-d"])
M("c09-fastpath-no-yield", "C09", A, "Lock.acquire",
  "            if not self._fast_acquire:\n                try:\n                    await AsyncIOBackend.cancel_shielded_checkpoint()\n                except CancelledError:\n                    self.release()\n                    raise\n\n            return",
  "            return", ["R09-d"])
M("c09-take-before-cancel-check", "C09", A, "Lock.acquire",
  "            await AsyncIOBackend.checkpoint_if_cancelled()\n            self._owner_task = task",
  "            self._owner_task = task\n            await AsyncIOBackend.checkpoint_if_cancelled()", ["R09-d"])
M("c09-reacquire-queues", "C09", A, "Lock.acquire",
  "        if self._owner_task == task:\n            raise RuntimeError(\"Attempted to acquire an already held Lock\")\n", "", ["R09-e"])
M("c09-nowait-no-wouldblock", "C09", A, "Lock.acquire_nowait", "        raise WouldBlock", "        return None", ["R09-e"])
M("c09-wrong-undo-order", "C09", A, "Lock.acquire",
  "            if fut.cancelled():\n                try:", "            if not fut.cancelled():\n                try:", ["R09-d"])

N("c09-n-flip-cmp", "C09", A, "Lock.release", "if self._owner_task != current_task():", "if current_task() != self._owner_task:")
N("c09-n-not-eq", "C09", A, "Lock.release", "if self._owner_task != current_task():", "if not (self._owner_task == current_task()):")
N("c09-n-swap-conj", "C09", A, "Lock.acquire",
  "if self._owner_task is None and not self._waiters:", "if not self._waiters and self._owner_task is None:")
N("c09-n-nested-if", "C09", A, "Lock.acquire_nowait",
  "        if self._owner_task is None and not self._waiters:\n            self._owner_task = task\n            return",
  "        if self._owner_task is None:\n            if not self._waiters:\n                self._owner_task = task\n                return")
N("c09-n-alias", "C09", A, "Lock.release",
  "        while self._waiters:\n            task, fut = self._waiters.popleft()",
  "        waiters = self._waiters\n        while waiters:\n            task, fut = waiters.popleft()")
N("c09-n-else-form", "C09", A, "Lock.release",
  "            if fut.cancelled():\n                continue\n\n            self._owner_task = task\n            fut.set_result(None)\n            return",
  "            if not fut.cancelled():\n                self._owner_task = task\n                fut.set_result(None)\n                return")


# ---- adapters / factory / async with (R09-g)
M("c09-adapter-acquire-nowait-blocks", "C09", SYNC, "LockAdapter.acquire", "        await self._lock.acquire()", "        self._lock.acquire_nowait()", ["R09-g"])
M("c09-adapter-drops-fast-acquire", "C09", SYNC, "LockAdapter._lock", "get_async_backend().create_lock(\n                fast_acquire=self._fast_acquire\n            )", "get_async_backend().create_lock(\n                fast_acquire=False\n            )", ["R09-g"])
M("c09-adapter-new-lock-each-time", "C09", SYNC, "LockAdapter._lock", "        if self._internal_lock is None:\n            self._internal_lock", "        if True:\n            self._internal_lock", ["R09-g"])
M("c09-adapter-release-noop-before-use", "C09", SYNC, "LockAdapter.release", "        self._lock.release()", "        if self._internal_lock is None:\n            return\n        if self._internal_lock.locked():\n            return\n        self._lock.release()", ["R09-g"])
M("c09-adapter-locked-constant", "C09", SYNC, "LockAdapter.locked", "        return self._lock.locked()", "        self._lock.locked()\n        return False", ["R09-g"])
M("c09-aexit-conditional-release", "C09", SYNC, "Lock.__aexit__", "        self.release()", "        if exc_type is None:\n            self.release()", ["R09-g"])
M("c09-factory-drops-fast-acquire", "C09", SYNC, "Lock.__new__", "return LockAdapter(fast_acquire=fast_acquire)", "return LockAdapter()", ["R09-g"])
# from seeded change C09/c (round 2)
M("c09-adapter-release-skips-unmaterialised", "C09", SYNC, "LockAdapter.release", "        self._lock.release()", "        if self._internal_lock is not None:\n            self._internal_lock.release()", ["R09-g"])

# from seeded change C09/d (round 2): the non-suspending summary of checkpoint_if_cancelled breaks
M("c09-cic-yields-past-shield", "C09", A, "AsyncIOBackend.checkpoint_if_cancelled",
  "            elif cancel_scope.shield:\n                break\n            else:\n                cancel_scope = cancel_scope._parent_scope",
  "            elif cancel_scope.shield and cancel_scope is _task_states[task].cancel_scope:\n                break\n            else:\n                cancel_scope = cancel_scope._parent_scope", ["R09-h"])

# from seeded change C09/e (round 3): the cancelled waiter removes something else than what it queued
M("c09-cancelled-waiter-removes-wrong-object", "C09", A, "Lock.acquire", "                    self._waiters.remove(item)", "                    self._waiters.remove(fut)", ["R09-d"])

# from seeded changes C09/g, C09/h (round 4)
M("c09-aenter-checkpoints-after-acquire", "C09", SYNC, "Lock.__aenter__", "        await self.acquire()\n", "        await self.acquire()\n        await checkpoint_if_cancelled()\n", ["R09-g"])
M("c09-release-drops-waiter-with-pending-cancel-request", "C09", A, "Lock.release", "            if fut.cancelled():\n                continue\n\n            self._owner_task = task",
  "            if fut.cancelled() or task.cancelling() > 0:\n                continue\n\n            self._owner_task = task", ["R09-b"])
N("c09-n-release-negated-liveness-test", "C09", A, "Lock.release",
  "            if fut.cancelled():\n                continue\n\n            self._owner_task = task\n            fut.set_result(None)\n            return",
  "            if not fut.cancelled():\n                self._owner_task = task\n                fut.set_result(None)\n                return")
