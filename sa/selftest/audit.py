"""Sensitivity audit: seeded mutants must be reported (naming the expected rule), neutral
variants must stay silent.  Variants are applied to a scratch copy of src/anyio in a
temporary directory outside /repo and /verif, which is removed afterwards.

A mutant is (id, property, module, qualname|None, old, new, expected rule prefixes).
`old` must occur exactly once inside the source segment of `qualname` (or the module);
if it does not (the working tree was edited), the variant is counted "not applicable".
"""
from __future__ import annotations

import ast
import io
import json
import os
import shutil
import sys
import tempfile
import contextlib
from concurrent.futures import ProcessPoolExecutor

HERE = os.path.dirname(os.path.abspath(__file__))
VERIF = os.path.dirname(os.path.dirname(HERE))
if VERIF not in sys.path:
    sys.path.insert(0, VERIF)


def _segment(src: str, qual: str | None):
    """(start, end) character offsets of the function/class `qual` in src"""
    if not qual:
        return 0, len(src)
    tree = ast.parse(src)
    parts = qual.split(".")
    setter = None
    if "@" in parts[-1]:
        parts[-1], setter = parts[-1].split("@")

    def find(node, parts):
        if not parts:
            return [node]
        out = []
        for ch in ast.walk(node):
            if ch is node:
                continue
            if isinstance(ch, (ast.FunctionDef, ast.AsyncFunctionDef, ast.ClassDef)) and ch.name == parts[0]:
                out += find(ch, parts[1:])
        return out

    cands = []
    for top in tree.body:
        if isinstance(top, (ast.FunctionDef, ast.AsyncFunctionDef, ast.ClassDef)) and top.name == parts[0]:
            cands += find(top, parts[1:])
        elif isinstance(top, (ast.If, ast.Try)):
            for ch in ast.walk(top):
                if isinstance(ch, (ast.FunctionDef, ast.AsyncFunctionDef, ast.ClassDef)) and ch.name == parts[0]:
                    cands += find(ch, parts[1:])
    if setter:
        cands = [c for c in cands if any(isinstance(d, ast.Attribute) and d.attr == setter for d in getattr(c, "decorator_list", []))]
    else:
        c2 = [c for c in cands if not any(isinstance(d, ast.Attribute) and d.attr in ("setter", "deleter") for d in getattr(c, "decorator_list", []))]
        cands = c2 or cands
    c3 = [c for c in cands if not any(isinstance(d, ast.Name) and d.id == "overload" for d in getattr(c, "decorator_list", []))]
    cands = c3 or cands
    if not cands:
        return None
    c = cands[0]
    lines = src.splitlines(keepends=True)
    offs = [0]
    for l in lines:
        offs.append(offs[-1] + len(l))
    start_line = min([c.lineno] + [d.lineno for d in getattr(c, "decorator_list", [])])
    return offs[start_line - 1], offs[c.end_lineno]


def _reindent(text: str, shift: int):
    out = []
    for i, l in enumerate(text.split("\n")):
        if not l.strip():
            out.append(l)
        elif shift > 0:
            # a fragment that starts in the middle of a line keeps its first line as it is
            out.append((" " * shift + l) if (i > 0 or l.startswith(" ")) else l)
        else:
            if l.startswith(" " * -shift):
                out.append(l[-shift:])
            elif i == 0 and not l.startswith(" "):
                out.append(l)
            else:
                return None
    return "\n".join(out)


def apply_edit(root: str, module: str, qual: str | None, old: str, new: str) -> bool:
    p = os.path.join(root, "src", "anyio", module)
    with open(p, encoding="utf-8") as fh:
        src = fh.read()
    seg = _segment(src, qual)
    if seg is None:
        return False
    a, b = seg
    body = src[a:b]
    if body.count(old) != 1:
        # the construct may have moved one block level in or out since the mutant was written (e.g. wrapped in a loop)
        for shift in (4, -4, 8, -8):
            o2, n2 = _reindent(old, shift), _reindent(new, shift)
            if o2 is not None and n2 is not None and body.count(o2) == 1:
                old, new = o2, n2
                break
        else:
            return False
    body = body.replace(old, new)
    out = src[:a] + body + src[b:]
    try:
        ast.parse(out)
    except SyntaxError:
        return False
    with open(p, "w", encoding="utf-8") as fh:
        fh.write(out)
    return True


def _run_variant(args):
    kind, vid, prop, edits, expect, root = args
    tmp = tempfile.mkdtemp(prefix="sa-audit-")
    try:
        shutil.copytree(os.path.join(root, "src", "anyio"), os.path.join(tmp, "src", "anyio"))
        if kind == "transform":
            from sa.selftest import neutral
            ok = neutral.apply(edits, tmp, prop)
            if not ok:
                return (kind, vid, "n/a", "")
        elif kind == "patch":
            import subprocess
            r = subprocess.run(["git", "apply", edits], cwd=tmp, stdout=subprocess.PIPE, stderr=subprocess.STDOUT)
            if r.returncode:
                return (kind, vid, "n/a", "")
        else:
            for (module, qual, old, new) in edits:
                if not apply_edit(tmp, module, qual, old, new):
                    return (kind, vid, "n/a", "")
        from sa import run as R
        buf = io.StringIO()
        with contextlib.redirect_stdout(buf):
            try:
                rc = R.main(["check", prop, "--root", tmp, "--no-write", "--tier", "quick"])
            except SystemExit as e:  # pragma: no cover
                rc = e.code
        out = buf.getvalue()
        lines = [l.strip() for l in out.splitlines() if l.strip().startswith("UNDISCHARGED")]
        rules = sorted({l.split()[1] for l in lines})
        if kind == "mutant":
            if rc == 1 and (not expect or any(r.startswith(e) for r in rules for e in expect)):
                return (kind, vid, "killed", ",".join(rules))
            if rc == 2:
                msg = [l for l in out.splitlines() if l.startswith("ANALYSIS-ERROR")]
                return (kind, vid, "analysis-error", (msg or [""])[0][:200])
            return (kind, vid, "missed", f"rc={rc} rules={rules}")
        else:
            if rc == 0:
                return (kind, vid, "silent", "")
            return (kind, vid, "false-alarm", f"rc={rc} " + " | ".join(lines[:3]) + " ".join(l for l in out.splitlines() if l.startswith("ANALYSIS-ERROR"))[:300])
    finally:
        shutil.rmtree(tmp, ignore_errors=True)


def variants_for(prop: str):
    from sa.selftest import mutants, neutral
    if not mutants.MUTANTS:
        mutants.load_all()
    out = []
    for m in mutants.MUTANTS:
        if m["prop"] == prop:
            out.append(("mutant", m["id"], prop, m["edits"], m.get("expect", []), None))
    for m in mutants.NEUTRAL:
        if m["prop"] == prop or m["prop"] == "*":
            out.append(("neutral", m["id"], prop, m["edits"], [], None))
    for t in neutral.transforms_for(prop):
        out.append(("transform", t, prop, t, [], None))
    # behaviour-preserving clean-up patches delivered by independent agents (DESIGN 9.1): every check stays silent on every one
    import glob
    if os.environ.get("AUDIT_HAND_ONLY"):        # developer shortcut: hand-written variants only (never used by the registered commands)
        return [v for v in out if v[0] in ("mutant", "neutral")]
    for pf in sorted(glob.glob(os.path.join(HERE, "neutral_patches", "*.diff"))):
        out.append(("patch", "patch:" + os.path.basename(pf)[:-5], prop, pf, [], None))
    return out


def run_audit(prop: str, root: str = "/repo", jobs: int = 16, verbose=False) -> dict:
    jobs = int(os.environ.get("AUDIT_JOBS", jobs))
    vs = [(k, i, p, e, x, root) for (k, i, p, e, x, _) in variants_for(prop)]
    res = []
    if vs:
        with ProcessPoolExecutor(max_workers=min(jobs, len(vs))) as ex:
            res = list(ex.map(_run_variant, vs))
    summ = {"mutants": 0, "killed": 0, "missed": [], "neutral": 0, "silent": 0, "false_alarms": [], "not_applicable": [],
            "analysis_errors": []}
    for kind, vid, status, info in res:
        if kind == "mutant":
            if status == "n/a":
                summ["not_applicable"].append(vid)
                continue
            summ["mutants"] += 1
            if status == "killed":
                summ["killed"] += 1
            elif status == "analysis-error":
                summ["analysis_errors"].append(f"{vid}: {info}")
            else:
                summ["missed"].append(f"{vid}: {info}")
        else:
            if status == "n/a":
                summ["not_applicable"].append(str(vid))
                continue
            summ["neutral"] += 1
            if status == "silent":
                summ["silent"] += 1
            else:
                summ["false_alarms"].append(f"{vid}: {info}")
        if verbose:
            print(f"  {kind:9s} {str(vid):40s} {status:14s} {info[:150]}")
    return summ


if __name__ == "__main__":
    props = sys.argv[1:] or [f"C{i:02d}" for i in range(1, 21)]
    bad = 0
    for p in props:
        if not os.path.exists(os.path.join(VERIF, "sa", "rules", p.lower() + ".py")):
            continue
        s = run_audit(p, verbose=True)
        print(p, json.dumps({k: v for k, v in s.items()}, indent=None)[:600])
        bad += len(s["missed"]) + len(s["false_alarms"]) + len(s["analysis_errors"])
    sys.exit(1 if bad else 0)
