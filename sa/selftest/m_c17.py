"""C17 mutants / neutral variants"""
from sa.selftest.mutants import M, MM, N

TLS = "streams/tls.py"
P = "TLSStream._call_sslobject_method"

M("c17-read-without-flush", "C17", TLS, P,
  "                    # Flush any pending writes first\n                    if self._write_bio.pending:\n                        await self.transport_stream.send(self._write_bio.read())\n\n                    data = await", "                    data = await", ["R17-a"])
M("c17-flush-after-read", "C17", TLS, P,
  "                    # Flush any pending writes first\n                    if self._write_bio.pending:\n                        await self.transport_stream.send(self._write_bio.read())\n\n                    data = await self.transport_stream.receive()",
  "                    data = await self.transport_stream.receive()\n                    if self._write_bio.pending:\n                        await self.transport_stream.send(self._write_bio.read())", ["R17-a"])
M("c17-data-not-fed", "C17", TLS, P, "                else:\n                    self._read_bio.write(data)", "                else:\n                    pass", ["R17-a"])
M("c17-eof-not-recorded", "C17", TLS, P, "                except EndOfStream:\n                    self._read_bio.write_eof()", "                except EndOfStream:\n                    pass", ["R17-a"])
M("c17-eof-clean-end", "C17", TLS, P, "                except EndOfStream:\n                    self._read_bio.write_eof()", "                except EndOfStream:\n                    self._read_bio.write_eof()\n                    raise", ["R17-a"])
M("c17-want-write-no-send", "C17", TLS, P, "            except ssl.SSLWantWriteError:\n                await self.transport_stream.send(self._write_bio.read())", "            except ssl.SSLWantWriteError:\n                self._write_bio.read()", ["R17-a"])
M("c17-success-no-flush", "C17", TLS, P,
  "            else:\n                # Flush any pending writes first\n                if self._write_bio.pending:\n                    await self.transport_stream.send(self._write_bio.read())\n\n                return result", "            else:\n                return result", ["R17-a"])
M("c17-success-flush-inverted", "C17", TLS, P, "                # Flush any pending writes first\n                if self._write_bio.pending:\n                    await self.transport_stream.send(self._write_bio.read())\n\n                return result",
  "                if not self._write_bio.pending:\n                    await self.transport_stream.send(self._write_bio.read())\n\n                return result", ["R17-a"])
M("c17-want-read-breaks", "C17", TLS, P, "                else:\n                    self._read_bio.write(data)", "                else:\n                    self._read_bio.write(data)\n                    break", ["R17-a"])
M("c17-sslerror-first", "C17", TLS, P, "            except ssl.SSLWantReadError:\n                try:", "            except ssl.SSLError as e0:\n                raise\n            except ssl.SSLWantReadError:\n                try:", ["R17-b"])
M("c17-syscall-after-sslerror", "C17", TLS, P,
  "            except ssl.SSLSyscallError as exc:\n                self._read_bio.write_eof()\n                self._write_bio.write_eof()\n                raise BrokenResourceError from exc\n            except ssl.SSLError as exc:\n                self._read_bio.write_eof()\n                self._write_bio.write_eof()\n                if isinstance(exc, ssl.SSLEOFError) or (\n                    exc.strerror and \"UNEXPECTED_EOF_WHILE_READING\" in exc.strerror\n                ):\n                    if self.standard_compatible:\n                        raise BrokenResourceError from exc\n                    else:\n                        raise EndOfStream from None\n\n                raise\n",
  "            except ssl.SSLError as exc:\n                self._read_bio.write_eof()\n                self._write_bio.write_eof()\n                if isinstance(exc, ssl.SSLEOFError) or (\n                    exc.strerror and \"UNEXPECTED_EOF_WHILE_READING\" in exc.strerror\n                ):\n                    if self.standard_compatible:\n                        raise BrokenResourceError from exc\n                    else:\n                        raise EndOfStream from None\n\n                raise\n            except ssl.SSLSyscallError as exc:\n                self._read_bio.write_eof()\n                self._write_bio.write_eof()\n                raise BrokenResourceError from exc\n", ["R17-b"])
M("c17-truncation-inverted", "C17", TLS, P, "                    if self.standard_compatible:\n                        raise BrokenResourceError from exc", "                    if not self.standard_compatible:\n                        raise BrokenResourceError from exc", ["R17-b"])
M("c17-truncation-always-eos", "C17", TLS, P, "                    if self.standard_compatible:\n                        raise BrokenResourceError from exc\n                    else:\n                        raise EndOfStream from None", "                    raise EndOfStream from None", ["R17-b"])
M("c17-any-sslerror-is-eof", "C17", TLS, P, "                if isinstance(exc, ssl.SSLEOFError) or (\n                    exc.strerror and \"UNEXPECTED_EOF_WHILE_READING\" in exc.strerror\n                ):\n                    if self.standard_compatible:", "                if True:\n                    if self.standard_compatible:", ["R17-b"])
M("c17-eoferror-ignored", "C17", TLS, P, "                if isinstance(exc, ssl.SSLEOFError) or (\n                    exc.strerror", "                if (\n                    exc.strerror", ["R17-b"])
M("c17-syscall-raw", "C17", TLS, P, "            except ssl.SSLSyscallError as exc:\n                self._read_bio.write_eof()\n                self._write_bio.write_eof()\n                raise BrokenResourceError from exc", "            except ssl.SSLSyscallError as exc:\n                self._read_bio.write_eof()\n                self._write_bio.write_eof()\n                raise", ["R17-b"])
M("c17-fatal-not-sealed", "C17", TLS, P, "            except ssl.SSLError as exc:\n                self._read_bio.write_eof()\n                self._write_bio.write_eof()\n", "            except ssl.SSLError as exc:\n", ["R17-b"])
M("c17-oserror-raw", "C17", TLS, P, "                except OSError as exc:\n                    self._read_bio.write_eof()\n                    self._write_bio.write_eof()\n                    raise BrokenResourceError from exc", "                except OSError as exc:\n                    self._read_bio.write_eof()\n                    self._write_bio.write_eof()\n                    raise", ["R17-b"])
M("c17-receive-empty-returned", "C17", TLS, "TLSStream.receive", "        if not data:\n            raise EndOfStream\n\n", "", ["R17-b", "R17-c"])
M("c17-receive-max-bytes-dropped", "C17", TLS, "TLSStream.receive", "self._call_sslobject_method(self._ssl_object.read, max_bytes)", "self._call_sslobject_method(self._ssl_object.read, 65536)", ["R17-c"])
M("c17-receive-no-validation", "C17", TLS, "TLSStream.receive", "        if max_bytes < 1:\n            raise ValueError(\"max_bytes must be a positive integer\")\n\n", "", ["R17-c"])
M("c17-aclose-no-unwrap", "C17", TLS, "TLSStream.aclose", "        if self.standard_compatible:\n            try:", "        if not self.standard_compatible:\n            try:", ["R17-c"])
M("c17-aclose-unwrap-always", "C17", TLS, "TLSStream.aclose", "        if self.standard_compatible:\n            try:", "        if True:\n            try:", ["R17-c"])
M("c17-aclose-no-force", "C17", TLS, "TLSStream.aclose", "                await aclose_forcefully(self.transport_stream)\n                raise", "                raise", ["R17-c"])
M("c17-aclose-swallow", "C17", TLS, "TLSStream.aclose", "                await aclose_forcefully(self.transport_stream)\n                raise", "                await aclose_forcefully(self.transport_stream)\n                return", ["R17-c"])
M("c17-aclose-exception-only", "C17", TLS, "TLSStream.aclose", "            except BaseException:", "            except Exception:", ["R17-c"])
M("c17-wrap-eof-option-for-all", "C17", TLS, "TLSStream.wrap",
  "            ssl_context = ssl.create_default_context(purpose)\n\n            # Re-enable detection of unexpected EOFs if it was disabled by Python\n            if hasattr(ssl, \"OP_IGNORE_UNEXPECTED_EOF\"):\n                ssl_context.options &= ~ssl.OP_IGNORE_UNEXPECTED_EOF\n",
  "            # Re-enable detection of unexpected EOFs if it was disabled by Python\n            ssl_context = ssl.create_default_context(purpose)\n", ["R17-c"])
M("c17-wrap-no-handshake", "C17", TLS, "TLSStream.wrap", "        await wrapper._call_sslobject_method(ssl_object.do_handshake)\n", "", ["R17-c"])
M("c17-wrap-bios-swapped", "C17", TLS, "TLSStream.wrap", "            _read_bio=bio_in,\n            _write_bio=bio_out,", "            _read_bio=bio_out,\n            _write_bio=bio_in,", ["R17-c"])
M("c17-send-bypasses-pump", "C17", TLS, "TLSStream.send", "        await self._call_sslobject_method(self._ssl_object.write, item)", "        self._ssl_object.write(item)", ["R17-c"])

N("c17-n-eof-test-flipped", "C17", TLS, P, "                    if self.standard_compatible:\n                        raise BrokenResourceError from exc\n                    else:\n                        raise EndOfStream from None",
  "                    if not self.standard_compatible:\n                        raise EndOfStream from None\n\n                    raise BrokenResourceError from exc")
N("c17-n-receive-chunk-name", "C17", TLS, "TLSStream.receive", "        data = await self._call_sslobject_method(self._ssl_object.read, max_bytes)\n        if not data:\n            raise EndOfStream\n\n        return data",
  "        plaintext = await self._call_sslobject_method(self._ssl_object.read, max_bytes)\n        if plaintext:\n            return plaintext\n\n        raise EndOfStream")

# from seeded change C17/a
M("c17-wrap-remaps-handshake-eof", "C17", TLS, "TLSStream.wrap", "        await wrapper._call_sslobject_method(ssl_object.do_handshake)\n",
  "        try:\n            await wrapper._call_sslobject_method(ssl_object.do_handshake)\n        except EndOfStream:\n            raise BrokenResourceError from None\n", ["R17-b"])
M("c17-receive-swallows-broken", "C17", TLS, "TLSStream.receive", "        data = await self._call_sslobject_method(self._ssl_object.read, max_bytes)\n",
  "        try:\n            data = await self._call_sslobject_method(self._ssl_object.read, max_bytes)\n        except BrokenResourceError:\n            raise EndOfStream from None\n", ["R17-b"])

# from seeded changes C17/c and C17/d (round 2)
M("c17-listener-drops-standard-compatible", "C17", TLS, "TLSListener.serve", "                        ssl_context=self.ssl_context,\n                        standard_compatible=self.standard_compatible,\n", "                        ssl_context=self.ssl_context,\n", ["R17-d"])
M("c17-connectable-drops-hostname", "C17", TLS, "TLSConnectable.connect", "                hostname=self.hostname,\n", "", ["R17-d"])
M("c17-anext-broken-is-clean-end", "C17", "abc/_streams.py", "ByteReceiveStream.__anext__", "        except EndOfStream:", "        except (EndOfStream, BrokenResourceError):", ["R17-d"])

# from seeded change C17/e (round 3)
M("c17-checkpoint-after-successful-call", "C17", TLS, "TLSStream._call_sslobject_method",
  "                if self._write_bio.pending:\n                    await self.transport_stream.send(self._write_bio.read())\n\n                return result",
  "                if self._write_bio.pending:\n                    await self.transport_stream.send(self._write_bio.read())\n                else:\n                    await sleep(0)\n\n                return result", ["R17-a"])

# from seeded change C17/i (round 5)
M("c17-listener-sets-ignore-eof-on-shared-context", "C17", "streams/tls.py", "TLSListener.serve", "    async def serve(", "    def __post_init__(self) -> None:\n        if not self.standard_compatible and hasattr(ssl, \"OP_IGNORE_UNEXPECTED_EOF\"):\n            self.ssl_context.options |= ssl.OP_IGNORE_UNEXPECTED_EOF\n\n    async def serve(", ["R17-c"])
