"""C06 mutants / neutral variants"""
from sa.selftest.mutants import M, MM, N, A, SYNC, MEM, TASKS

TO = "CancelScope._timeout"
DS = "CancelScope.deadline@setter"

M("c06-fires-early", "C06", A, TO, "            if loop.time() >= self._deadline:", "            if True:", ["R06-a"])
M("c06-direct-cancel-callback", "C06", A, TO, "loop.call_at(self._deadline, self._timeout)", "loop.call_at(self._deadline, self.cancel)", ["R06-a"])
M("c06-armed-late", "C06", A, TO, "loop.call_at(self._deadline, self._timeout)", "loop.call_at(self._deadline + 1, self._timeout)", ["R06-a"])
M("c06-past-deadline-not-cancelled", "C06", A, TO,
  "            if loop.time() >= self._deadline:\n                self.cancel(\"deadline exceeded\")\n            else:\n                self._timeout_handle",
  "            if loop.time() < self._deadline:\n                self._timeout_handle", ["R06-a"])
M("c06-enter-no-timer", "C06", A, "CancelScope.__enter__", "        self._timeout()\n", "", ["R06-a"])
M("c06-strict-gt", "C06", A, TO, "if loop.time() >= self._deadline:", "if loop.time() > self._deadline + 0.001:", ["R06-a"])
M("c06-second-timer", "C06", A, "CancelScope.__enter__", "        self._active = True\n", "        self._active = True\n        self._timeout_handle = get_running_loop().call_at(self._deadline, self.cancel)\n", ["R06-b"])
M("c06-setter-keeps-old-timer", "C06", A, DS,
  "        if self._timeout_handle is not None:\n            self._timeout_handle.cancel()\n            self._timeout_handle = None\n\n", "", ["R06-c"])
M("c06-setter-no-rearm", "C06", A, DS, "        if self._active and not self._cancel_called:\n            self._timeout()", "        pass", ["R06-c"])
M("c06-setter-rearm-inactive", "C06", A, DS, "        if self._active and not self._cancel_called:", "        if not self._cancel_called:", ["R06-c"])
M("c06-setter-rearm-cancelled", "C06", A, DS, "        if self._active and not self._cancel_called:", "        if self._active:", ["R06-c"])
M("c06-setter-rearm-before-store", "C06", A, DS,
  "        self._deadline = float(value)\n        if self._timeout_handle is not None:", "        if self._active and not self._cancel_called:\n            self._timeout()\n\n        self._deadline = float(value)\n        if self._timeout_handle is not None:", ["R06-c"])
M("c06-failat-timeout-on-any-cancel", "C06", TASKS, "fail_at",
  "if cancel_scope.cancelled_caught and current_time() >= cancel_scope.deadline:", "if cancel_scope.cancelled_caught:", ["R06-d"])
M("c06-failat-timeout-without-caught", "C06", TASKS, "fail_at",
  "if cancel_scope.cancelled_caught and current_time() >= cancel_scope.deadline:", "if current_time() >= cancel_scope.deadline:", ["R06-d"])
M("c06-failat-cancel-called", "C06", TASKS, "fail_at",
  "if cancel_scope.cancelled_caught and", "if cancel_scope.cancel_called and", ["R06-d"])
M("c06-failat-drops-shield", "C06", TASKS, "fail_at", "        deadline=effective_deadline, shield=shield\n", "        deadline=effective_deadline\n", ["R06-d"])
M("c06-failat-none-is-zero", "C06", TASKS, "fail_at", "effective_deadline = math.inf if deadline is None else deadline", "effective_deadline = 0 if deadline is None else deadline", ["R06-d"])
M("c06-failafter-relative-as-absolute", "C06", TASKS, "fail_after", "deadline = (current_time() + delay) if delay is not None else math.inf", "deadline = delay if delay is not None else math.inf", ["R06-d"])
M("c06-moveonafter-drops-shield", "C06", TASKS, "move_on_after", "create_cancel_scope(deadline=deadline, shield=shield)", "create_cancel_scope(deadline=deadline)", ["R06-d"])
M("c06-moveonat-none-now", "C06", TASKS, "move_on_at", "deadline=deadline if deadline is not None else math.inf", "deadline=deadline if deadline is not None else 0.0", ["R06-d"])
M("c06-factory-swaps", "C06", A, "AsyncIOBackend.create_cancel_scope", "CancelScope(deadline=deadline, shield=shield)", "CancelScope(deadline=deadline)", ["R06-d"])
M("c06-effective-ignores-shielded-own", "C06", A, "AsyncIOBackend.current_effective_deadline",
  "            deadline = min(deadline, cancel_scope.deadline)\n            if cancel_scope._cancel_called:\n                deadline = -math.inf\n                break\n            elif cancel_scope.shield:\n                break\n            else:\n                cancel_scope = cancel_scope._parent_scope",
  "            if cancel_scope._cancel_called:\n                deadline = -math.inf\n                break\n            elif cancel_scope.shield:\n                break\n            else:\n                deadline = min(deadline, cancel_scope.deadline)\n                cancel_scope = cancel_scope._parent_scope", ["R06-e"])
M("c06-effective-max", "C06", A, "AsyncIOBackend.current_effective_deadline", "deadline = min(deadline, cancel_scope.deadline)", "deadline = max(deadline, cancel_scope.deadline)", ["R06-e"])
M("c06-effective-cancelled-not-neginf", "C06", A, "AsyncIOBackend.current_effective_deadline", "                deadline = -math.inf\n                break", "                break", ["R06-e"])
M("c06-deadline-getter-wrong", "C06", A, "CancelScope.cancelled_caught", "return self._cancelled_caught", "return self._cancel_called", ["R06-d"])

N("c06-n-lt-form", "C06", A, TO,
  "            if loop.time() >= self._deadline:\n                self.cancel(\"deadline exceeded\")\n            else:\n                self._timeout_handle = loop.call_at(self._deadline, self._timeout)",
  "            if loop.time() < self._deadline:\n                self._timeout_handle = loop.call_at(self._deadline, self._timeout)\n            else:\n                self.cancel(\"deadline exceeded\")")
N("c06-n-ifexp-flip", "C06", TASKS, "fail_at", "effective_deadline = math.inf if deadline is None else deadline", "effective_deadline = deadline if deadline is not None else math.inf")
N("c06-n-setter-truthy", "C06", A, DS, "        if self._timeout_handle is not None:", "        if self._timeout_handle:")

# from seeded change C06/a (also delivered as C03/c in round 2)
M("c06-rearm-only-if-timer-pending", "C06", A, "CancelScope.deadline@setter",
  "            self._timeout_handle = None\n\n        if self._active and not self._cancel_called:\n            self._timeout()",
  "            self._timeout_handle = None\n            if self._active and not self._cancel_called:\n                self._timeout()", ["R06-c"])

# effective deadline: the early-return form delivered as neutral refactor C06/n3, and its broken siblings
_EFF_OLD = ("        deadline = math.inf\n        while cancel_scope:\n            deadline = min(deadline, cancel_scope.deadline)\n            if cancel_scope._cancel_called:\n"
            "                deadline = -math.inf\n                break\n            elif cancel_scope.shield:\n                break\n            else:\n"
            "                cancel_scope = cancel_scope._parent_scope\n\n        return deadline\n")
N("c06-n-effective-early-returns", "C06", A, "AsyncIOBackend.current_effective_deadline", _EFF_OLD,
  "        earliest = math.inf\n        scope = cancel_scope\n        while scope is not None:\n            if scope._cancel_called:\n                return -math.inf\n\n"
  "            earliest = min(earliest, scope.deadline)\n            if scope.shield:\n                return earliest\n\n            scope = scope._parent_scope\n\n        return earliest\n")
M("c06-effective-early-returns-shield-before-min", "C06", A, "AsyncIOBackend.current_effective_deadline", _EFF_OLD,
  "        earliest = math.inf\n        scope = cancel_scope\n        while scope is not None:\n            if scope._cancel_called:\n                return -math.inf\n\n"
  "            if scope.shield:\n                return earliest\n\n            earliest = min(earliest, scope.deadline)\n            scope = scope._parent_scope\n\n        return earliest\n", ["R06-e"])
M("c06-effective-early-returns-cancelled-returns-accumulated", "C06", A, "AsyncIOBackend.current_effective_deadline", _EFF_OLD,
  "        earliest = math.inf\n        scope = cancel_scope\n        while scope is not None:\n            earliest = min(earliest, scope.deadline)\n            if scope._cancel_called:\n                return earliest\n\n"
  "            if scope.shield:\n                return earliest\n\n            scope = scope._parent_scope\n\n        return earliest\n", ["R06-e"])
M("c06-effective-neginf-at-shield", "C06", A, "AsyncIOBackend.current_effective_deadline", "            elif cancel_scope.shield:\n                break\n",
  "            elif cancel_scope.shield:\n                deadline = -math.inf\n                break\n", ["R06-e"])
M("c06-effective-skips-every-other-scope", "C06", A, "AsyncIOBackend.current_effective_deadline", "                cancel_scope = cancel_scope._parent_scope\n",
  "                cancel_scope = cancel_scope._parent_scope\n                if cancel_scope is not None and not cancel_scope.shield and not cancel_scope._cancel_called:\n                    cancel_scope = cancel_scope._parent_scope\n", ["R06-e"])

# from seeded changes C06/c and C06/d (round 2): a fired deadline whose cancellation is not delivered
M("c06-restart-shield-before-cancelled", "C06", A, "CancelScope._restart_cancellation",
  "            if scope._cancel_called:\n                if scope._cancel_handle is None:\n                    scope._deliver_cancellation(scope)\n\n                break\n\n            # No point in looking beyond any shielded scope\n            if scope._shield:\n                break\n",
  "            # No point in looking beyond any shielded scope\n            if scope._shield:\n                break\n\n            if scope._cancel_called:\n                if scope._cancel_handle is None:\n                    scope._deliver_cancellation(scope)\n\n                break\n", ["R06-f"])
M("c06-delivery-forgets-retry", "C06", A, "CancelScope._deliver_cancellation", "            should_retry = True\n            if task._must_cancel:", "            if task._must_cancel:", ["R06-f"])

# from seeded change C06/g (round 4)
M("c06-current-time-wall-clock", "C06", A, "AsyncIOBackend.current_time", "        return get_running_loop().time()", "        return __import__(\"time\").monotonic()", ["R06-g"])
