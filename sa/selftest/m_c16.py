"""C16 mutants / neutral variants"""
from sa.selftest.mutants import M, MM, N

BUF = "streams/buffered.py"
TXT = "streams/text.py"
RC = "BufferedByteReceiveStream.receive"
RX = "BufferedByteReceiveStream.receive_exactly"
RU = "BufferedByteReceiveStream.receive_until"

M("c16-receive-del-one-less", "C16", BUF, RC, "            del self._buffer[:max_bytes]", "            del self._buffer[: max_bytes - 1]", ["R16-a"])
M("c16-receive-del-one-more", "C16", BUF, RC, "            del self._buffer[:max_bytes]", "            del self._buffer[: max_bytes + 1]", ["R16-a"])
M("c16-receive-no-del", "C16", BUF, RC, "            del self._buffer[:max_bytes]\n", "", ["R16-a"])
M("c16-receive-clear", "C16", BUF, RC, "            del self._buffer[:max_bytes]", "            self._buffer.clear()", ["R16-a"])
M("c16-receive-drop-surplus", "C16", BUF, RC, "                self._buffer.extend(chunk[max_bytes:])\n", "", ["R16-a"])
M("c16-receive-return-whole-after-buffering", "C16", BUF, RC, "                return chunk[:max_bytes]", "                return chunk", ["R16-a", "R16-b"])
M("c16-receive-split-off-by-one", "C16", BUF, RC, "self._buffer.extend(chunk[max_bytes:])", "self._buffer.extend(chunk[max_bytes + 1 :])", ["R16-a", "R16-b"])
M("c16-receive-split-condition", "C16", BUF, RC, "            if len(chunk) > max_bytes:", "            if len(chunk) > max_bytes + 1:", ["R16-b"])
M("c16-receive-forward-wrong-size", "C16", BUF, RC, "return await self.receive_stream.receive(max_bytes)", "return await self.receive_stream.receive()", ["R16-b", "R16-a"])
M("c16-receive-no-validation", "C16", BUF, RC, "        if max_bytes < 1:\n            raise ValueError(\"max_bytes must be a positive integer\")\n\n", "", ["R16-b"])
M("c16-receive-suffix", "C16", BUF, RC, "            chunk = bytes(self._buffer[:max_bytes])\n            del self._buffer[:max_bytes]", "            chunk = bytes(self._buffer[-max_bytes:])\n            del self._buffer[-max_bytes:]", ["R16-a", "R16-b"])
M("c16-receive-prepend", "C16", BUF, RC, "self._buffer.extend(chunk[max_bytes:])", "self._buffer[:0] = chunk[max_bytes:]", ["R16-a"])
M("c16-receive-bypass-buffer", "C16", BUF, RC, "        if self._buffer:\n            chunk = bytes(self._buffer[:max_bytes])", "        if self._buffer and not isinstance(self.receive_stream, ByteReceiveStream):\n            chunk = bytes(self._buffer[:max_bytes])", ["R16-b"])
M("c16-exactly-del-more", "C16", BUF, RX, "                del self._buffer[:nbytes]", "                del self._buffer[: len(self._buffer)]", ["R16-a"])
M("c16-exactly-return-all", "C16", BUF, RX, "                retval = self._buffer[:nbytes]", "                retval = self._buffer[:]", ["R16-a", "R16-b"])
M("c16-exactly-early", "C16", BUF, RX, "            if remaining <= 0:", "            if remaining <= 1:", ["R16-b"])
M("c16-exactly-forget-chunk", "C16", BUF, RX, "            self._buffer.extend(chunk)", "            if chunk:\n                pass", ["R16-a"])
M("c16-exactly-overread", "C16", BUF, RX, "chunk = await self.receive_stream.receive(remaining)", "chunk = await self.receive_stream.receive(nbytes)", ["R16-b"])
M("c16-exactly-consume-on-failure", "C16", BUF, RX, "            except EndOfStream as exc:\n                raise IncompleteRead from exc", "            except EndOfStream as exc:\n                del self._buffer[:nbytes]\n                raise IncompleteRead from exc", ["R16-a"])
M("c16-exactly-eof-returns-short", "C16", BUF, RX, "            except EndOfStream as exc:\n                raise IncompleteRead from exc", "            except EndOfStream as exc:\n                nbytes = len(self._buffer)\n                continue", ["R16-b"])
M("c16-until-delimiter-left", "C16", BUF, RU, "                del self._buffer[: index + len(delimiter) :]", "                del self._buffer[:index]", ["R16-a"])
M("c16-until-delimiter-included", "C16", BUF, RU, "                found = self._buffer[:index]", "                found = self._buffer[: index + len(delimiter)]", ["R16-a", "R16-c"])
M("c16-until-del-one-more", "C16", BUF, RU, "                del self._buffer[: index + len(delimiter) :]", "                del self._buffer[: index + len(delimiter) + 1]", ["R16-a"])
M("c16-until-offset-skips", "C16", BUF, RU, "offset = max(len(self._buffer) - delimiter_size + 1, 0)", "offset = max(len(self._buffer) - delimiter_size + 2, 0)", ["R16-c"])
M("c16-until-offset-no-window", "C16", BUF, RU, "offset = max(len(self._buffer) - delimiter_size + 1, 0)", "offset = max(len(self._buffer), 0)", ["R16-c"])
M("c16-until-offset-unclamped", "C16", BUF, RU, "offset = max(len(self._buffer) - delimiter_size + 1, 0)", "offset = len(self._buffer) - delimiter_size + 1", ["R16-c"])
MM("c16-until-F9-revert-offset-after-await", "C16", [
    (BUF, RU, "            offset = max(len(self._buffer) - delimiter_size + 1, 0)\n\n", ""),
    (BUF, RU, "            # Add the new data to the buffer\n            self._buffer.extend(data)", "            offset = max(len(self._buffer) - delimiter_size + 1, 0)\n            self._buffer.extend(data)"),
], ["R16-c"])
MM("c16-until-offset-after-extend", "C16", [
    (BUF, RU, "            offset = max(len(self._buffer) - delimiter_size + 1, 0)\n\n", ""),
    (BUF, RU, "            # Add the new data to the buffer\n            self._buffer.extend(data)", "            self._buffer.extend(data)\n            offset = max(len(self._buffer) - delimiter_size + 1, 0)"),
], ["R16-c"])
M("c16-until-limit-before-search", "C16", BUF, RU,
  "            index = self._buffer.find(delimiter, offset)\n            if index >= 0:\n                found = self._buffer[:index]\n                del self._buffer[: index + len(delimiter) :]\n                return bytes(found)\n\n            # Check if the buffer is already at or over the limit\n            if len(self._buffer) >= max_bytes:\n                raise DelimiterNotFound(max_bytes)\n",
  "            # Check if the buffer is already at or over the limit\n            if len(self._buffer) >= max_bytes:\n                raise DelimiterNotFound(max_bytes)\n\n            index = self._buffer.find(delimiter, offset)\n            if index >= 0:\n                found = self._buffer[:index]\n                del self._buffer[: index + len(delimiter) :]\n                return bytes(found)\n",
  ["R16-c"])
M("c16-until-limit-off-by-one", "C16", BUF, RU, "            if len(self._buffer) >= max_bytes:", "            if len(self._buffer) >= max_bytes - 1:", ["R16-c"])
M("c16-until-forget-data", "C16", BUF, RU, "            self._buffer.extend(data)", "            if not data:\n                self._buffer.extend(data)", ["R16-a", "R16-c"])
M("c16-until-found-zero-excluded", "C16", BUF, RU, "            if index >= 0:", "            if index > 0:", ["R16-c"])
M("c16-until-consume-on-notfound", "C16", BUF, RU, "                raise DelimiterNotFound(max_bytes)", "                del self._buffer[:max_bytes]\n                raise DelimiterNotFound(max_bytes)", ["R16-a"])
M("c16-feed-data-prepend", "C16", BUF, "BufferedByteReceiveStream.feed_data", "        self._buffer.extend(data)", "        self._buffer[:0] = bytes(data)", ["R16-a"])
M("c16-text-decode-final", "C16", TXT, "TextReceiveStream.receive", "self._decoder.decode(chunk)", "self._decoder.decode(chunk, True)", ["R16-d"])
M("c16-text-return-empty", "C16", TXT, "TextReceiveStream.receive", "            if decoded:\n                return decoded", "            return decoded", ["R16-d"])
M("c16-text-stateless-decode", "C16", TXT, "TextReceiveStream.receive", "decoded = self._decoder.decode(chunk)", "decoded = chunk.decode()", ["R16-d"])
M("c16-text-fresh-decoder", "C16", TXT, "TextReceiveStream.receive", "            decoded = self._decoder.decode(chunk)", "            self._decoder = codecs.getincrementaldecoder(\"utf-8\")()\n            decoded = self._decoder.decode(chunk)", ["R16-d"])
MM("c16-text-F10-revert-stateless-encoder", "C16", [
    (TXT, "TextSendStream.__post_init__", "self._encoder = codecs.getincrementalencoder(encoding)(errors=self.errors)", "self._encoder = codecs.getencoder(encoding)"),
    (TXT, "TextSendStream.send", "        self._encoder.errors = self.errors\n        encoded = self._encoder.encode(item)", "        encoded = self._encoder(item, self.errors)[0]"),
], ["R16-d"])
M("c16-text-send-truncated", "C16", TXT, "TextSendStream.send", "await self.transport_stream.send(encoded)", "await self.transport_stream.send(encoded[:65536])", ["R16-d"])
M("c16-text-stream-encoding-dropped", "C16", TXT, "TextStream.__post_init__", "        self._send_stream = TextSendStream(\n            self.transport_stream, encoding=encoding, errors=errors\n        )", "        self._send_stream = TextSendStream(self.transport_stream, errors=errors)", ["R16-d"])

N("c16-n-receive-retval-name", "C16", BUF, RC, "            chunk = bytes(self._buffer[:max_bytes])\n            del self._buffer[:max_bytes]\n            return chunk", "            head = self._buffer[:max_bytes]\n            del self._buffer[:max_bytes]\n            return bytes(head)")
N("c16-n-until-delim-size-alias", "C16", BUF, RU, "                del self._buffer[: index + len(delimiter) :]", "                del self._buffer[: index + delimiter_size]")
N("c16-n-until-offset-order", "C16", BUF, RU, "offset = max(len(self._buffer) - delimiter_size + 1, 0)", "offset = max(0, 1 + len(self._buffer) - len(delimiter))")
N("c16-n-exactly-inline-remaining", "C16", BUF, RX, "chunk = await self.receive_stream.receive(remaining)", "chunk = await self.receive_stream.receive(nbytes - len(self._buffer))")

# from seeded changes C16/c and C16/d (round 2)
M("c16-text-encoder-reset-on-error", "C16", TXT, "TextSendStream.send", "        encoded = self._encoder.encode(item)", "        try:\n            encoded = self._encoder.encode(item)\n        except UnicodeError:\n            self._encoder.reset()\n            raise", ["R16-d"])
M("c16-receive-checkpoint-after-consume", "C16", BUF, RC, "            del self._buffer[:max_bytes]\n            return chunk", "            del self._buffer[:max_bytes]\n            await self.receive_stream.aclose() if False else None\n            return chunk", ["R16-a"])

# from seeded change C16/f (round 3)
M("c16-exactly-chunk-bypasses-buffer", "C16", BUF, RX, "            self._buffer.extend(chunk)", "            if len(chunk) == nbytes:\n                return bytes(chunk)\n\n            self._buffer.extend(chunk)", ["R16-b"])
N("c16-n-exactly-bytes-first", "C16", BUF, RX, "                retval = self._buffer[:nbytes]\n                del self._buffer[:nbytes]\n                return bytes(retval)", "                retval = bytes(self._buffer[:nbytes])\n                del self._buffer[:nbytes]\n                return retval")

# from seeded change C16/h (round 4)
M("c16-receive-default-codec-strips-signature", "C16", TXT, "TextReceiveStream", "    encoding: InitVar[str] = \"utf-8\"\n    errors: InitVar[str] = \"strict\"\n    _decoder", "    encoding: InitVar[str] = \"utf-8-sig\"\n    errors: InitVar[str] = \"strict\"\n    _decoder", ["R16-e"])

# from seeded changes C16/i, C16/j (round 5)
M("c16-buffered-stream-unwraps-buffered-argument", "C16", BUF, "BufferedByteStream.__init__", "        super().__init__(stream)\n", "        if isinstance(stream, BufferedByteStream):\n            stream = stream._stream\n\n        super().__init__(stream)\n", ["R16-f"])
M("c16-decoder-from-class-default", "C16", TXT, "TextReceiveStream.__post_init__", "        decoder_class = codecs.getincrementaldecoder(encoding)", "        decoder_class = codecs.getincrementaldecoder(self.encoding)", ["R16-d"])
